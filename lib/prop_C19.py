"""C19: allocation failure is reported by the constructors."""
from vcommon import *
import scen_common

PID = "C19"
PROP_V = ["Props/Properties_C19.v", "Props/Properties_C19m.v"]
GEN_MODULES = ["Consts", "Sites"]
FLOW_FILES = ['note.c', 'counter.c']
REPLAY_HINT = ("VRT_WHICH=<0|1|2> VRT_SEED=<seed> _work/h/alloc_fail   (the allocation of that constructor call returns NULL) | "
               "VRT_SEED=<seed> _work/h/note_alloc (failing allocations of a creator thread under concurrency, replayed in lock-step)")
TRUSTED_BASE = ["gen/sites.py's extraction of the calls / pointer stores / atomic sites of the two constructors and of the conditions dominating them",
                "Model/NoteModel.v control skeleton (the failing allocation is the choice c = true at pc W1), validated by lock-step replay of note_alloc"]
PARTIAL = ["KNOWN FINDING (known_findings.json, key alloc_waiter:CRASH; fifth review): the theorems and the other scenarios fail the constructor's OWN allocation only; nsync_note_new's nsync_mu_lock of a contended parent->note_mu may allocate the calling thread's waiter struct (nsync_waiter_new_: unchecked malloc), and a failure THERE crashes instead of returning NULL -- within the property's quantifier ('every allocation performed by the constructors'), reproduced by alloc_waiter, not repaired (a lock acquisition cannot report failure); nsync_counter_new takes no lock and is not affected",
           "nsync_counter_new has no step model of its own (CounterModel starts from a constructed counter): its half is the evaluation of the regenerated "
           "dominance conditions (C19_counter_new_does_nothing_on_null) and the alloc_fail scenario; the note half is additionally a frame theorem over "
           "NoteModel (C19m_note_new_null_frame) tied to the code by lock-step replay of runs with failing allocations under concurrency",
           "'leaves every existing object usable' is, for notes, the content of the C08 / C09 theorems, which hold for every reachable world of NoteModel "
           "including those reached through failed allocations; byte-for-byte equality of the existing objects is checked by the sequential alloc_fail scenario only"]


def run(tier, seed):
    import mu_common
    res = {"violations": [], "broken": [], "coverage": {}}
    tie = mu_common.tie(res, "note_replay", "NoteModel", [("note_alloc", {}, 300, 3000)], tier, seed)
    specs = [("alloc_fail", {"VRT_WHICH": w}, 60, 600) for w in (0, 1, 2)] + [("note_alloc", {}, 1500, 20000), ("alloc_waiter", {}, 40, 400)]
    cov = scen_common.run_scenarios(res, specs, tier, seed, {"C19", "UAF"} | scen_common.CRASHES | scen_common.LIVENESS, label_nontrivial="malloc_failed")
    cov["rule"] = ("alloc_fail: builds root/child notes and counters, makes the allocation of one constructor call (child of root, child of a "
                   "child with a deadline, a counter) fail, checks NULL result, byte-for-byte unchanged existing objects, and that the tree and "
                   "counters are still usable (new child, notify reaches children, free); non-trivial = runs in which an allocation failed")
    cov["rule"] += ("; note_alloc: a creator thread's nsync_note_new calls under P and under its child C with the allocation of about half of "
                    "them failing, concurrently with notify (P), polls of and a timed wait on C: NULL exactly when the allocation failed, the same "
                    "call without the fault succeeds at once, and a notification of P reaches every live note at the end")
    cov.update(tie)
    res["coverage"] = cov
    return res
