"""Shared by the mutex-family properties: extraction + lock-step replay of implementation traces through MuModel."""
import os, re, glob, shutil, concurrent.futures as cf
from vcommon import *
import vrt_runner

EXTRACT = os.path.join(COQ, "_extract")
ML_BASE = ["BinNums", "Datatypes", "PeanoNat", "BinPos", "BinNat", "BinInt", "List", "CSem", "Consts", "Sites"]
REPLAYERS = {"mu_replay": ["MuModel", "MuReplay"], "sem_replay": ["SemModel", "SemReplay"],
             "once_replay": ["OnceModel", "OnceReplay", "rcommon"]}


def build_replayer(name="mu_replay"):
    """Extract the models (as regenerated for this tree) and compile replay/<name>.ml in its own directory.  Returns (exe, err)."""
    dest = os.path.join(COQ, "_extract_" + name)
    with Lock("coq"):
        b = coq_build(["Model/MuReplay.vo", "Model/SemReplay.vo", "Model/OnceReplay.vo"])
        if not b["ok"]:
            return None, "model does not build: " + b["log"][-800:]
        if os.path.isdir(EXTRACT):
            shutil.rmtree(EXTRACT)
        os.makedirs(EXTRACT)
        rc, out, err = sh(["coqc", "-Q", "Base", "NsyncBase", "-Q", "Gen", "NsyncGen", "-Q", "Model", "NsyncModel", "Extract.v"],
                          cwd=COQ, timeout=300)
        if rc != 0:
            return None, "extraction failed: " + (err or out)[-800:]
        if os.path.isdir(dest):
            shutil.rmtree(dest)
        shutil.copytree(EXTRACT, dest)
    shutil.copy(os.path.join(VERIF, "replay", name + ".ml"), dest)
    shutil.copy(os.path.join(VERIF, "replay", "rcommon.ml"), dest)
    files = []
    for m in ML_BASE + REPLAYERS[name]:
        files += [m + ".ml"] if m == "rcommon" else [m + ".mli", m + ".ml"]
    rc, out, err = sh(["ocamlfind", "ocamlopt", "-package", "str", "-linkpkg", "-w", "-a"] + files +
                      [name + ".ml", "-o", name], cwd=dest, timeout=300)
    if rc != 0:
        return None, "replayer does not compile: " + (err or out)[-800:]
    return os.path.join(dest, name), None


def replay_one(replayer, exe, seed, env_extra, tdir):
    tr = os.path.join(tdir, "t%d.txt" % seed)
    env = dict(env_extra)
    env["VRT_TRACE"] = tr
    env["VRT_QUIET"] = 1
    r = vrt_runner.run_one(exe, seed, env, 60)
    out = {"seed": seed, "run": r}
    if os.path.exists(tr):
        rc, o, e = sh([replayer, tr, os.path.join(GEN, "Sites.json")], timeout=60)
        out["replay_rc"] = rc
        out["replay"] = o.strip()[:600]
        os.remove(tr)
    else:
        out["replay_rc"] = -1
        out["replay"] = "no trace written"
    return out


def replay_many(replayer, exe, seeds, env_extra=None):
    tdir = os.path.join(WORK, "traces")
    os.makedirs(tdir, exist_ok=True)
    env_extra = env_extra or {}
    with cf.ThreadPoolExecutor(max_workers=NCPU) as ex:
        return list(ex.map(lambda s: replay_one(replayer, exe, s, env_extra, tdir), seeds))


def replay_summary(results):
    steps = 0
    sites = {}
    mism = []
    for r in results:
        m = re.match(r"OK steps=(\d+) skipped=(\d+) snapshots=(\d+) sites=(.*)", r.get("replay", ""))
        if m:
            steps += int(m.group(1))
            for kv in m.group(4).split(","):
                if ":" in kv:
                    k, v = kv.rsplit(":", 1)
                    sites[k] = sites.get(k, 0) + int(v)
        elif r["run"].get("prop") is None:
            mism.append({"seed": r["seed"], "replay": r.get("replay")})
    return steps, sites, mism


MODEL_SITES = [101, 102, 103, 201, 202, 203, 301, 302, 303, 401, 402, 403, 501, 502, 503, 504, 505, 601, 602,
               701, 702, 703, 801, 802, 803, 901, 902, 903, 904, 905, 907]
