"""Shared by the mutex-family properties: extraction + lock-step replay of implementation traces through MuModel."""
import os, re, glob, shutil, concurrent.futures as cf
from vcommon import *
import vrt_runner

EXTRACT = os.path.join(COQ, "_extract")
# replayer name -> (extraction file, directory it extracts into, .vo targets it needs)
REPLAYERS = {
    "mu_replay": ("Extract.v", "_extract", ["Model/MuReplay.vo", "Model/SemReplay.vo", "Model/OnceReplay.vo"]),
    "sem_replay": ("Extract.v", "_extract", ["Model/MuReplay.vo", "Model/SemReplay.vo", "Model/OnceReplay.vo"]),
    "once_replay": ("Extract.v", "_extract", ["Model/MuReplay.vo", "Model/SemReplay.vo", "Model/OnceReplay.vo"]),
    "counter_replay": ("Extract_Counter.v", "_extract_counter", ["Model/CounterReplay.vo"]),
    "waitn_replay": ("Extract_WaitN.v", "_extract_waitn", ["Model/WaitNReplay.vo"]),
    "note_replay": ("Extract_Note.v", "_extract_note", ["Model/NoteReplay.vo"]),
    "cv_replay": ("Extract_Cv.v", "_extract_cv", ["Model/CvReplay.vo"]),
    "muwait_replay": ("Extract_MuWait.v", "_extract_muwait", ["Model/MuWaitReplay.vo"]),
    "semwait_replay": ("Extract_SemWait.v", "_extract_semwait", ["Model/SemWaitReplay.vo"]),
    "muxfer_replay": ("Extract_MuXfer.v", "_extract_muxfer", ["Model/MuXferReplay.vo"]),
    "muall_replay": ("Extract_MuAll.v", "_extract_muall", ["Model/MuAllReplay.vo"]),
    "mudbg_replay": ("Extract_MuDbg.v", "_extract_mudbg", ["Model/MuDbgReplay.vo"]),
    "cvdbg_replay": ("Extract_CvDbg.v", "_extract_cvdbg", ["Model/CvDbgReplay.vo"]),
}
OTHER_MAINS = set()


def build_replayer(name="mu_replay"):
    """Extract the model (as regenerated for this tree) and compile replay/<name>.ml in its own directory.  Returns (exe, err)."""
    import hashlib
    extract_v, exdir, vos = REPLAYERS[name]
    src = os.path.join(COQ, exdir)
    final = os.path.join(COQ, "_rp_" + name)
    dest = final + ".build%d" % os.getpid()
    with Lock("coq"):
        b = coq_build(vos)
        if not b["ok"]:
            return None, "model does not build: " + b["log"][-800:]
        # up to date?  (inputs: every .v of the development as it stands now, the replayer sources)
        h = hashlib.sha256()
        for d in ("Base", "Gen", "Model"):
            for fn in sorted(os.listdir(os.path.join(COQ, d))):
                if fn.endswith(".v"):
                    h.update(open(os.path.join(COQ, d, fn), "rb").read())
        for fn in (extract_v,):
            h.update(open(os.path.join(COQ, fn), "rb").read())
        for fn in (name + ".ml", "rcommon.ml"):
            h.update(open(os.path.join(VERIF, "replay", fn), "rb").read())
        fp = h.hexdigest()
        stamp = os.path.join(final, "FINGERPRINT")
        if os.path.exists(os.path.join(final, name)) and os.path.exists(stamp) and open(stamp).read() == fp:
            return os.path.join(final, name), None
        if os.path.isdir(src):
            shutil.rmtree(src)
        os.makedirs(src)
        rc, out, err = sh(["coqc", "-Q", "Base", "NsyncBase", "-Q", "Gen", "NsyncGen", "-Q", "Model", "NsyncModel", extract_v],
                          cwd=COQ, timeout=300)
        if rc != 0:
            return None, "extraction failed: " + (err or out)[-800:]
        if os.path.isdir(dest):
            shutil.rmtree(dest)
        shutil.copytree(src, dest)
    try:
        shutil.copy(os.path.join(VERIF, "replay", name + ".ml"), dest)
        shutil.copy(os.path.join(VERIF, "replay", "rcommon.ml"), dest)
        mls = sorted(f for f in os.listdir(dest) if f.endswith(".ml") or f.endswith(".mli"))
        rc, out, err = sh(["ocamlfind", "ocamldep", "-sort"] + mls, cwd=dest, timeout=120)
        order = out.split()
        if rc != 0 or not order:
            return None, "ocamldep failed: " + (err or out)[-400:]
        rc, out, err = sh(["ocamlfind", "ocamlopt", "-package", "str", "-linkpkg", "-w", "-a"] + order + ["-o", name], cwd=dest, timeout=300)
        if rc != 0:
            return None, "replayer does not compile: " + (err or out)[-800:]
        # publish atomically: a concurrent check may be executing the previous binary
        os.makedirs(final, exist_ok=True)
        os.replace(os.path.join(dest, name), os.path.join(final, name))
        open(stamp, "w").write(fp)
        return os.path.join(final, name), None
    finally:
        shutil.rmtree(dest, ignore_errors=True)


def replay_one(replayer, exe, seed, env_extra, tdir):
    tr = os.path.join(tdir, "t%d.txt" % seed)
    env = dict(env_extra)
    env["VRT_TRACE"] = tr
    env["VRT_QUIET"] = 1
    r = vrt_runner.run_one(exe, seed, env, 60)
    out = {"seed": seed, "run": r}
    if os.path.exists(tr):
        rc, o, e = sh([replayer, tr, os.path.join(GEN, "Sites.json")], timeout=60)
        out["replay_rc"] = rc
        out["replay"] = o.strip()[:1500]
        import flowcheck
        out["flow_pairs"], out["flow_bad"] = flowcheck.check_trace(tr)
        os.remove(tr)
    else:
        out["replay_rc"] = -1
        out["replay"] = "no trace written"
    return out


def replay_many(replayer, exe, seeds, env_extra=None):
    tdir = os.path.join(WORK, "traces", "%d_%s" % (os.getpid(), os.path.basename(exe)))
    os.makedirs(tdir, exist_ok=True)
    env_extra = env_extra or {}
    with cf.ThreadPoolExecutor(max_workers=NCPU) as ex:
        return list(ex.map(lambda s: replay_one(replayer, exe, s, env_extra, tdir), seeds))


def replay_summary(results):
    steps = 0
    sites = {}
    mism = []
    for r in results:
        m = re.match(r"OK steps=(\d+) skipped=(\d+) snapshots=(\d+)(?: \w+=\d+)* sites=(\S*)", r.get("replay", ""))
        if m:
            steps += int(m.group(1))
            for kv in m.group(4).split(","):
                if ":" in kv:
                    k, v = kv.rsplit(":", 1)
                    sites[k] = sites.get(k, 0) + int(v)
        elif r["run"].get("prop") is None:
            mism.append({"seed": r["seed"], "replay": r.get("replay")})
        if r.get("flow_bad"):
            mism.append({"seed": r["seed"], "replay": "translator validation (gen/flow.py vs execution): " + r["flow_bad"][0]})
    return steps, sites, mism


MODEL_SITES = [101, 102, 103, 201, 202, 203, 301, 302, 303, 401, 402, 403, 501, 502, 503, 504, 505, 601, 602,
               701, 702, 703, 801, 802, 803, 901, 902, 903, 904, 905, 907]


def tie(res, replayer_name, what, batches, tier, seed):
    """batches: list of (scenario, env, n_quick, n_thorough).  Adds correspondence failures to res['broken']; returns coverage keys."""
    base = seed * 100000
    replayer, err = build_replayer(replayer_name)
    if replayer is None:
        res["broken"].append({"what": "replayer build failed (%s)" % replayer_name, "detail": err})
        return {}
    steps, sites, nall, nbad = 0, {}, 0, 0
    for scen, env, nq, nt in batches:
        exe, err = vrt_runner.build(scen)
        if exe is None:
            res["broken"].append({"what": "harness build failed (%s)" % scen, "detail": err})
            continue
        n = nq if tier == "quick" else nt
        rr = replay_many(replayer, exe, range(base + 1, base + 1 + n), env)
        s2, st2, mism = replay_summary(rr)
        steps += s2
        nall += n
        nbad += len(mism)
        for k, v in st2.items():
            sites[k] = sites.get(k, 0) + v
        for m in mism[:2]:
            res["broken"].append({"what": "correspondence: %s and the real code disagree in lock-step" % what, "scenario": scen, "env": env,
                                  "seed": m["seed"], "detail": m["replay"]})
    return {"traces_validated_against_impl": nall - nbad, "lockstep_model_steps": steps, "model_sites_hit": sites}
