"""C10: the counter is atomic and its waiters are released exactly at zero."""
from vcommon import *
import scen_common

PID = "C10"
PROP_V = ["Props/Properties_C10.v"]
GEN_MODULES = ["Consts", "Sites"]
FLOW_FILES = ['counter.c', 'wait.c']
REPLAY_HINT = "VRT_SEED=<seed> _work/h/counter_mix"
PARTIAL = ["nsync_counter_free is exercised sequentially only (alloc_fail); a review tried waits followed at once by nsync_counter_free while the last nsync_counter_add may still be inside (8000 schedules under the runtime): clean, not a registered scenario",
           "'through nsync_wait_n': CounterModel inlines the waitable path for count = 1, mu = NULL; the composition of the real counter steps with wait.c's loop is covered by WaitNModel (abstract counter) + waitn_mix, not by one composed model",
           'runs that race the `waited` ASSERT (an increment from zero concurrent with the first wait: C10_assert_race) are excluded by `broken w = false` -- a client-contract hypothesis (all increments precede all waits), recorded in DESIGN 9.2',
           "C10_no_stuck is proved in the form C10_no_stuck_partial (an unfinished thread can run, or waits for a lock whose holder can run, or "
           "sleeps with its record queued while the value is non-zero); the unconditional statement is refuted by a client-side deadlock "
           "(a waiter on a counter nobody decrements): C10_no_stuck_refuted"]
TRUSTED_BASE = ["Model/CounterModel.v control skeleton (counter_mu abstract, the one-object path of nsync_wait_n inlined): hand-written, "
                "validated by lock-step replay incl. returned values (replay/counter_replay.ml)"]


def run(tier, seed):
    import mu_common, vrt_runner
    res = {"violations": [], "broken": [], "coverage": {}}
    base = seed * 100000
    tie = {}
    exe, err = vrt_runner.build("counter_mix")
    replayer, err2 = mu_common.build_replayer("counter_replay")
    if exe is None or replayer is None:
        res["broken"].append({"what": "harness or replayer build failed", "detail": err or err2})
    else:
        n = 500 if tier == "quick" else 5000
        rr = mu_common.replay_many(replayer, exe, range(base + 1, base + 1 + n))
        steps, sites, mism = mu_common.replay_summary(rr)
        for m in mism[:3]:
            res["broken"].append({"what": "correspondence: CounterModel and the real counter.c disagree in lock-step", "scenario": "counter_mix",
                                  "seed": m["seed"], "detail": m["replay"]})
        tie = {"traces_validated_against_impl": n - len(mism), "lockstep_model_steps": steps, "model_sites_hit": sites}
    specs = [("counter_mix", {}, 4000, 80000), ("waitn_mix", {"VRT_KIND": 1}, 1500, 30000), ("waitn_mix", {"VRT_KIND": 1, "VRT_PRE": 1}, 1000, 20000)]
    cov = scen_common.run_scenarios(res, specs, tier, seed, {"C10", "C11"} | scen_common.LIVENESS | scen_common.CRASHES | scen_common.MEMORY)
    cov["rule"] = ("counter_mix: 1..3 decrementers (some doing +1/-1 pairs and reads), 0..2 waiters with/without deadline, a late waiter; at the "
                   "end a search for a linearization of all returned values (adds, value reads, zero-waits) against an integer that respects "
                   "real-time order; wait non-zero only at/after the deadline; a wait after zero does not block; waitn_mix on counters; "
                   "non-trivial = runs with semaphore sleeps")
    cov.update(tie)
    res["coverage"] = cov
    return res
