"""C12: the per-thread semaphore never loses a post (futex semaphore over a modelled kernel futex)."""
import os
from vcommon import *
import vrt_runner, mu_common

PID = "C12"
PROP_V = "Props/Properties_C12.v"
GEN_MODULES = ["Consts", "Sites", "Time"]
FLOW_FILES = ['nsync_semaphore_futex.c']
REPLAY_HINT = "VRT_SEED=<seed> VRT_INJECT=<pct> _work/h/sem_mix  (add VRT_TRACE=<file>; replay through the model with coq/_rp_sem_replay/sem_replay <file> coq/Gen/Sites.json)"
PARTIAL = ["the theorems and the lock-step tie are about the FUTEX semaphore (platform/linux); the std::mutex / condition_variable semaphore of the pure C++11 platform is exercised by C15's real-library grid only (F18 was found there), the posix-mutex, sem_t, win32 and macOS semaphores not at all",
           "Progress is proved as a safety decomposition (C12_no_lost_post: a sleeping owner with a positive count has a wake-up pending; C12_solo: an owner "
           "awake inside a call completes it within 4 own steps; C12_future: an idle owner's next call returns 0 in 2 steps without entering the kernel; "
           "C12_conservation: successful Ps + count + pending posts = posts made); the temporal statement under fair scheduling (Definition "
           "C12_fair_wakeup_full) is not proved",
           "one owner per semaphore (nsync's contract: only the waiter's own thread P's its semaphore); several concurrent P callers are not modelled"]
TRUSTED_BASE = ["the clock is read in one model step and compared in a later one; the comparison is the translated nsync_time_cmp of Gen/Time.v; the replayer "
                "checks the value read (clock event) against the model's and takes the decision step when the owner is next heard of, so the decision is tied "
                "to the trace only through its outcome (retry load / ETIMEDOUT return value)",
                "the kernel futex contract is MODELLED (harness/rt/vrt.c and Model/SemModel.v): atomic compare-and-block, FUTEX_WAKE wakes "
                "at most n sleepers, absolute CLOCK_REALTIME deadline, EINVAL for an invalid timespec, arbitrary EINTR / early ETIMEDOUT",
                "Model/SemModel.v control skeleton: hand-written, validated by lock-step replay (replay/sem_replay.ml, ExtrOcamlBasic only)"]


def run(tier, seed, pid="C12"):
    res = {"violations": [], "broken": [], "coverage": {}}
    exe, err = vrt_runner.build("sem_mix")
    if exe is None:
        res["broken"].append({"what": "harness build failed", "detail": err})
        return res
    base = seed * 100000
    replayer, err = mu_common.build_replayer("sem_replay")
    nrep = 600 if tier == "quick" else 6000
    steps, sites, mism = 0, {}, []
    if replayer is None:
        res["broken"].append({"what": "replayer build failed", "detail": err})
    else:
        for inj in (0, 35):
            rr = mu_common.replay_many(replayer, exe, range(base + 1, base + 1 + nrep // 2), {"VRT_INJECT": inj, "VRT_INJECTK": 3})
            s, st, mm = mu_common.replay_summary(rr)
            steps += s
            for k, v in st.items():
                sites[k] = sites.get(k, 0) + v
            mism += mm
        for m in mism[:3]:
            res["broken"].append({"what": "correspondence: SemModel and the real nsync_semaphore_futex.c disagree in lock-step",
                                  "scenario": "sem_mix", "seed": m["seed"], "detail": m["replay"]})
    nrun = 3000 if tier == "quick" else 60000
    agg = {}
    nontriv = 0
    for inj in (0, 35):
        rs = vrt_runner.run_many(exe, range(base + 1, base + 1 + nrun // 2), {"VRT_INJECT": inj, "VRT_INJECTK": 3, "VRT_QUIET": 1})
        a2, fails = vrt_runner.summarize(rs)
        for k, v in a2.items():
            agg[k] = agg.get(k, 0) + v
        nontriv += sum(1 for r in rs if r.get("stats", {}).get("futex_sleep", 0) + r.get("stats", {}).get("inject_eintr", 0) > 0)
        seen = set()
        for f in fails:
            if f["prop"] in seen:
                continue
            seen.add(f["prop"])
            res["violations"].append({"scenario": "sem_mix", "env": {"VRT_INJECT": inj}, "seed": f["seed"], "oracle": f["prop"],
                                      "why": f["msg"], "trace_tail": f.get("tail", []), "key": "sem_mix:" + f["prop"]})
    res["coverage"] = {"evaluations": nrun + nrep, "distinct_nontrivial": nontriv,
                       "rule": "sem_mix: one owner doing plain and timed P (deadlines before/at/after now, before the epoch, no_deadline), 1..2 "
                               "posters, random/PCT schedules, with and without injected EINTR / early ETIMEDOUT (up to 3 per run); "
                               "non-trivial = runs in which the owner slept in the kernel or got an injected return",
                       "traces_validated_against_impl": nrep - len(mism), "lockstep_model_steps": steps, "model_events_hit": sites,
                       "sched_stats": agg, "samples": [{"scenario": "sem_mix", "seed": base + 1, "inject": 35}]}
    return res
