"""C03: every hand-off is a happens-before edge under the declared memory orders."""
from vcommon import *
import scen_common

PID = "C03"
PROP_V = "Props/Properties_C03.v"
GEN_MODULES = ["Consts", "Sites"]
REPLAY_HINT = "VRT_SEED=<seed> [env] _work/h/<scenario>: the runtime's vector-clock detector (harness/rt/vrt.c) reports the unordered pair"
PARTIAL = ["C03_mutex_handoff is proved for the condition-free mutex model; hand-offs through cv / mu_wait / note / counter / once are covered by "
           "the pinned memory orders (C03_publication_orders, C03_inventory_current) and by the vector-clock detector on sampled schedules, "
           "not by an execution-level theorem; nsync's internal plain fields are checked by the detector only",
           "interleaving (SC) semantics for the atomics themselves: non-SC outcomes of relaxed atomics are not explored"]
TRUSTED_BASE = ["harness/rt/vrt.c vector-clock detector: implements the release/acquire + release-sequence rules stated in Model/HbModel.v; "
                "plain accesses are observed through compile-only -fsanitize=thread instrumentation of the nsync sources and scenarios"]


def run(tier, seed):
    res = {"violations": [], "broken": [], "coverage": {}}
    specs = [("mu_mix", {}, 1500, 30000), ("cv_mix", {"VRT_MODE": 0}, 1000, 20000), ("cv_mix", {"VRT_MODE": 1}, 700, 15000),
             ("cv_mix", {"VRT_MODE": 2}, 700, 15000), ("once_mix", {}, 1000, 20000), ("counter_mix", {}, 1000, 20000),
             ("note_mix", {}, 1200, 20000), ("waitn_mix", {}, 1200, 20000), ("muwait_mix", {}, 1200, 20000), ("muwait_mix", {"VRT_MODE": 0, "VRT_FINE": 600}, 2000, 40000), ("mu_mix", {"VRT_PLAINPM": 40}, 800, 15000), ("cv_mix", {"VRT_PLAINPM": 40}, 800, 15000)]
    cov = scen_common.run_scenarios(res, specs, tier, seed, {"RACE"}, label_nontrivial="plain")
    cov["rule"] = ("all scenario families run with the runtime's happens-before detector on: client data touched inside critical sections, "
                   "once-function effects, note/counter/cv hand-offs and nsync's own non-atomic fields; happens-before is computed only from "
                   "the memory order each executed ATM_* macro passes; non-trivial = executions with instrumented plain accesses")
    res["coverage"] = cov
    return res
