"""C03: every hand-off is a happens-before edge under the declared memory orders."""
from vcommon import *
import scen_common

PID = "C03"
PROP_V = ["Props/Properties_C03.v", "Props/Properties_C03b.v", "Props/Properties_C03c.v"]
GEN_MODULES = ["Consts", "Sites", "Orders"]
FLOW_FILES = ['mu.c', 'mu_wait.c', 'once.c', 'counter.c', 'cv.c', 'note.c', 'wait.c']
REPLAY_HINT = "VRT_SEED=<seed> [env] _work/h/<scenario>: the runtime's vector-clock detector (harness/rt/vrt.c) reports the unordered pair"
PARTIAL = ["execution-level hand-off theorems: mutex over MuModel (C03_mutex_handoff) and over MuWaitModel = mu.c + mu_wait.c, including release by "
           "blocking in nsync_mu_wait, unlock_without_wakeup, re-acquisition on wake-up / timeout / cancel and the two plain release stores of "
           "mu_try_acquire_after_timeout_or_cancel (C03_muwait_handoff, for fewer than 2^24-1 threads; C03_muwait_wake_handoff for the waiting flag under an "
           "explicit reads-from hypothesis); once (C03_once_handoff, C03_once_fn_handoff: already from the END of the once-function); counter "
           "(C03_counter_handoff(_any) through c->value, C03_counter_wake_handoff through nw->waiting only; the semaphore V->P lemma C03_counter_sem_handoff "
           "is futex flavour only and not part of the claim); the note flag, the cv signal->waiter edge and wake_waiters' CASes on the mutex word are covered by "
           "order lemmas on the regenerated inventory (C03_publication_orders, C03_mutex_word_writes, C03_note_flag_orders) and by the vector-clock detector on "
           "sampled schedules (with client payload data for the note / counter / wait_n hand-offs), not by an execution-level theorem; the W->R downgrade store "
           "(mu_wait.c:106) is covered as part of the release view's monotonicity, not as a `release' step of its own; nsync's internal plain fields are checked "
           "by the detector only",
           "the classification of mutex-word writes into releasing/acquiring (mu_word_releasing/acquiring) and the list of files in all_sites are hand-written; "
           "C03_mutex_word_writes proves they cover every write in those 12 files",
           "interleaving (SC) semantics for the atomics themselves: non-SC outcomes of relaxed atomics are not explored"]
TRUSTED_BASE = ["gen/orders.py: textual extraction of the memory order of each ATM_* macro from platform/c11, gcc_new, c++11 atomic.h and the harness header "
                "(C03_macro_orders_agree proves the tables equal); platform/gcc/atomic.h chooses gcc_old (full __sync barriers, stronger) or gcc_new by compiler "
                "version; other flavours (atm-asm, msvc, clang/gcc_old, c_from_c++11) are not read",
                "gen/sites.py target strings: a mutex word is recognised by the names word.mu / word.pmu / word.cv_mu and the parameter w of "
                "nsync_spin_test_and_set_ (C03_mutex_word_writes proves every `word.` target is one of these or a cv word)",
                "harness/rt/vrt.c vector-clock detector: implements the release/acquire + release-sequence rules stated in Model/HbModel.v; "
                "plain accesses are observed through compile-only -fsanitize=thread instrumentation of the nsync sources and scenarios"]


def run(tier, seed):
    res = {"violations": [], "broken": [], "coverage": {}}
    specs = [("muwait_mix", {"VRT_MODE": 5}, 500, 8000), ("muwait_mix", {"VRT_MODE": 6}, 400, 6000), ("cv_mix", {"VRT_MODE": 7}, 400, 6000), ("mix_all", {}, 800, 15000), ("refcount_cv", {}, 200, 3000), ("note_f9", {"VRT_T3": 2}, 300, 5000), ("cv_mixlocks", {}, 300, 5000), ("muall_mix", {}, 400, 6000), ("mu_mix", {}, 1500, 30000), ("cv_mix", {"VRT_MODE": 0}, 1000, 20000), ("cv_mix", {"VRT_MODE": 1}, 700, 15000),
             ("cv_mix", {"VRT_MODE": 2}, 700, 15000), ("once_mix", {}, 1000, 20000), ("counter_mix", {}, 1000, 20000),
             ("note_mix", {}, 1200, 20000), ("note_mix", {"VRT_FAMILY": 4}, 600, 10000), ("waitn_mix", {}, 1200, 20000), ("waitn_mix", {"VRT_KIND": 0}, 500, 10000), ("waitn_mix", {"VRT_KIND": 1}, 500, 10000), ("muwait_mix", {}, 1200, 20000), ("muwait_mix", {"VRT_MODE": 0, "VRT_FINE": 600}, 2000, 40000), ("mu_mix", {"VRT_PLAINPM": 40}, 800, 15000), ("cv_mix", {"VRT_PLAINPM": 40}, 800, 15000),
             ("cv_mix", {"VRT_MODE": 3}, 700, 15000), ("cv_mix", {"VRT_MODE": 4}, 700, 15000), ("cv_mix", {"VRT_MODE": 5}, 700, 15000),
             ("cv_mix", {"VRT_MODE": 6}, 1000, 20000), ("cv_mix", {"VRT_MODE": 6, "VRT_PLAINPM": 40}, 600, 12000), ("cancel_mix", {}, 1000, 20000)]
    cov = scen_common.run_scenarios(res, specs, tier, seed, {"RACE"}, label_nontrivial="plain")
    cov["rule"] = ("all scenario families run with the runtime's happens-before detector on: client data touched inside critical sections, "
                   "once-function effects, note/counter/cv hand-offs and nsync's own non-atomic fields; happens-before is computed only from "
                   "the memory order each executed ATM_* macro passes; non-trivial = executions with instrumented plain accesses")
    res["coverage"] = cov
    return res
