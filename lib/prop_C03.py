"""C03: every hand-off is a happens-before edge under the declared memory orders."""
from vcommon import *
import scen_common

PID = "C03"
PROP_V = ["Props/Properties_C03.v", "Props/Properties_C03b.v"]
GEN_MODULES = ["Consts", "Sites"]
FLOW_FILES = ['mu.c', 'once.c', 'counter.c']
REPLAY_HINT = "VRT_SEED=<seed> [env] _work/h/<scenario>: the runtime's vector-clock detector (harness/rt/vrt.c) reports the unordered pair"
PARTIAL = ["execution-level hand-off theorems exist for the mutex (C03_mutex_handoff over MuModel), the once word (C03_once_handoff over OnceModel: "
           "the view at the end of the once-function is contained in the view at EVERY nsync_run_once* return) and the counter "
           "(C03_counter_handoff(_any), C03_counter_wake_handoff over CounterModel, with the semaphore V->P edge resting on the checked "
           "premise C03_sem_orders); the note flag and the signal->waiter edge are covered by order lemmas over the regenerated inventory "
           "(C03_note_flag_orders: every access to `notified` in all 12 files is a release store or an acquire load; C03_publication_orders) "
           "and by the vector-clock detector on sampled schedules, not by an execution-level theorem; nsync's internal plain fields are "
           "checked by the detector only",
           "interleaving (SC) semantics for the atomics themselves: non-SC outcomes of relaxed atomics are not explored"]
TRUSTED_BASE = ["harness/rt/vrt.c vector-clock detector: implements the release/acquire + release-sequence rules stated in Model/HbModel.v; "
                "plain accesses are observed through compile-only -fsanitize=thread instrumentation of the nsync sources and scenarios"]


def run(tier, seed):
    res = {"violations": [], "broken": [], "coverage": {}}
    specs = [("mu_mix", {}, 1500, 30000), ("cv_mix", {"VRT_MODE": 0}, 1000, 20000), ("cv_mix", {"VRT_MODE": 1}, 700, 15000),
             ("cv_mix", {"VRT_MODE": 2}, 700, 15000), ("once_mix", {}, 1000, 20000), ("counter_mix", {}, 1000, 20000),
             ("note_mix", {}, 1200, 20000), ("note_mix", {"VRT_FAMILY": 4}, 600, 10000), ("waitn_mix", {}, 1200, 20000), ("waitn_mix", {"VRT_KIND": 0}, 500, 10000), ("waitn_mix", {"VRT_KIND": 1}, 500, 10000), ("muwait_mix", {}, 1200, 20000), ("muwait_mix", {"VRT_MODE": 0, "VRT_FINE": 600}, 2000, 40000), ("mu_mix", {"VRT_PLAINPM": 40}, 800, 15000), ("cv_mix", {"VRT_PLAINPM": 40}, 800, 15000),
             ("cv_mix", {"VRT_MODE": 3}, 700, 15000), ("cv_mix", {"VRT_MODE": 4}, 700, 15000), ("cv_mix", {"VRT_MODE": 5}, 700, 15000),
             ("cv_mix", {"VRT_MODE": 6}, 1000, 20000), ("cv_mix", {"VRT_MODE": 6, "VRT_PLAINPM": 40}, 600, 12000), ("cancel_mix", {}, 1000, 20000)]
    cov = scen_common.run_scenarios(res, specs, tier, seed, {"RACE"}, label_nontrivial="plain")
    cov["rule"] = ("all scenario families run with the runtime's happens-before detector on: client data touched inside critical sections, "
                   "once-function effects, note/counter/cv hand-offs and nsync's own non-atomic fields; happens-before is computed only from "
                   "the memory order each executed ATM_* macro passes; non-trivial = executions with instrumented plain accesses")
    res["coverage"] = cov
    return res
