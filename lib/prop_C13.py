"""C13: releasing or waking never touches memory its owner may have reclaimed."""
from vcommon import *
import scen_common, prop_mu_family

PID = "C13"
PROP_V = ["Props/Properties_C13.v", "Props/Properties_C13b.v", "Props/Properties_C13r.v", "Props/Properties_C13x.v", "Props/Properties_C13w.v", "Props/Properties_C05sw.v"]
GEN_MODULES = ["Consts", "Sites"]
FLOW_FILES = ['mu.c', 'sem_wait.c', 'note.c', 'mu_wait.c', 'cv.c', 'wait.c', 'counter.c']
REPLAY_HINT = "VRT_SEED=<seed> [env] _work/h/<scenario>: the arena unmaps freed blocks (UAF) and the runtime knows every thread's parked stack pointer (DEADSTACK)"
PARTIAL = ["Properties_C13b proves by computation over the regenerated Gen/Flow.v + Gen/Sites.v that after nsync_mu_unlock_slow_'s last word CAS (site 5, retry load 6) "
           "only the `waiting` store (site 7), nsync_mu_semaphore_v and EXIT are reachable and that this tail is closed; that after the early-release CAS (site 3) the "
           "function cannot return without passing site 5; and that each release CAS of nsync_mu_unlock / nsync_mu_runlock is followed by EXIT or by another look at "
           "the word / the slow-path call.  Flow.v is a may-follow relation without branch polarity: that EXIT is the SUCCESS branch of `if (!CAS)` comes from the "
           "model (C13_fast_release_is_last) and the lock-step replay; plain accesses and callees without atomic sites (dll operations) are not nodes of the flow",
           "the property's first sentence read literally ('touches nothing after the release') is false on the contended path: between the early release (spinlock CAS that drops the lock bits) and the last CAS another thread may lock and unlock; C13_pinned is the substitute: in that window the mutex is pinned by a non-empty queue / designated waker that the freeing thread would have to pass, and after the LAST CAS only waiter records are touched (C13_last_cas)",
           "C13_last_cas / C13_fast_release_is_last are facts about the model's step function for ANY world (syntactic in the hand-written skeleton; tied to the code by the lock-step replay and the flow pin of mu.c: after nsync_mu_unlock_slow_'s last word CAS the only nodes are the `waiting` store, semaphore V and EXIT); reads are not expressible in the model's footprint, they are the arena oracle's business",
           "waker half: C13_waker_footprint (Properties_C11) covers nsync_wait_n records on cvs without transferred waiters, and is tied to the code: the replay "
           "compares the model's footprint with the implementation's traced accesses to nsync_waiter_s records at every replayed step (exact for heap arrays, "
           "count > 4; per owner and call for on-stack records, because the trace has no stack offsets) and checks at the trace position of every such access "
           "that the record is alive in the model; C13_psem_read_before_store and C13_v_touches_nothing show that wake_waiters' store step has r in its footprint "
           "and hands the semaphore over in the pc, and that the V step touches no record.  Only ATOMIC accesses (the `waiting` word) are in the trace; plain "
           "accesses (sem, flags, dll links) remain with the arena and dead-stack oracles",
           "cancellable waits' on-stack records (nsync_sem_wait_with_cancel_'s `nw`): Properties_C05sw over Model/SemWaitModel.v -- C13sw_no_dead_touch (in every "
           "reachable world no step of a notifier or of the owner has read or written a record whose call had returned; list operations are charged with touching "
           "EVERY record on the list), C13sw_taken_live (a record a notifier has unlinked is live and the notifier holds the note's note_mu: only note_mu protects "
           "it, which is why the wait re-takes note_mu before returning -- the seeded change C13c removes exactly that), C13sw_queue; cancel notes without "
           "children, note_mu abstract; tied by lock-step replay of cancel_mix",
           "mutex half, THE REFCOUNT THEOREM (Properties_C13r over Model/MuRefModel.v, a wrapper that steps MuModel unchanged and adds refs, a ghost "
           "`freed` and a ghost `bad` set by any step that accesses mu->word / mu->waiters after the free): for any number of threads (< 2^24 - 1), any "
           "extra lock / rlock / trylock rounds before the decrement round and any schedule, the pattern lock; last = (--refs == 0); unlock; if last free "
           "never sets `bad` (C13r_no_touch_after_free); once freed every other thread is Idle or in the post-last-CAS tail that touches only waiter "
           "records (C13r_tail_after_free, non-vacuous: C13r_tail_example frees while another thread is still at its V); the sound read-mode pattern "
           "(decrement after runlock returned) is C13r_reader_variant; the in-lock read-mode decrement is refuted as a CLIENT error "
           "(C13r_reader_inlock_refuted: the object is freed while another reader still holds its own read lock -- the withdrawn design finding F5).  "
           "Limits of C13r: condition-free MuModel without condition-variable traffic; it rests on 'MU_WAITING set => the queue is non-empty', which cv.c's wake_waiters "
           "violated -- F15 (DESIGN 9.2), found by the statement audit of that very theorem, reproduced on the real library (refcount_cv) and repaired in /repo 0f631a1",
           "THE REFCOUNT THEOREM WITH CV TRAFFIC (Properties_C13x over Model/MuXRefModel.v = MuXferModel + refs / freed / bad): users make arbitrary rounds of lock / rlock / "
           "trylock / unlock, cv waits in either mode (native and through nsync_wait_n with the mutex), signals and broadcasts under either lock or none, then the write-mode "
           "decrement round; NON-users wait on the cv through nsync_wait_n without a mutex and signal / broadcast; C13x_no_touch_after_free: in every reachable world no step "
           "reads or writes the mutex word or queue after the free (any threads < 2^24 - 1, programs of that shape, schedules, choices); it uses C04x_waiting_only_if_queued "
           "(the F15 repair as an invariant) exactly where C13r used the queue invariant (C13x_release_has_waiter).  THE REGRESSION: C13x_old_code_refuted -- the same model "
           "with the release step of the code before 0f631a1 reaches bad = true on the F15 schedule (C13x_f15_old_stale_bit: word 268 over an empty queue; "
           "C13x_f15_old_window: freed while D sits in nsync_mu_unlock_slow_ with an empty wake list); C13x_f15_schedule_repaired: harmless under the repaired step.  "
           "Random exploration of the extracted model (3*10^5 programs) finds neither a violation of the repaired model nor F15 in the old one (too deep): only the scripted "
           "schedule does.  THE REFCOUNT THEOREM AROUND CONDITIONAL CRITICAL SECTIONS (Properties_C13w over Model/MuWRefModel.v = MuWaitModel + refs / freed / bad; any programs of "
           "lock / rlock / trylock / set-condition / nsync_mu_wait_with_deadline in either mode with deadlines, cancellation and timeouts INSIDE the critical section / "
           "nsync_mu_unlock_without_wakeup, then the write-mode decrement round): C13w_no_touch_after_free; the argument 'a timed-out nsync_mu_wait leaves MU_WAITING stale "
           "but together with MU_CONDITION, which makes the release late' is now an invariant (C13w_stale_waiting_has_condition, C13w_release_window), non-vacuous by "
           "C13w_stale_example (word 21 over an empty queue, a late release with an empty wake list) and C13w_tail_example (free while another thread is at its V after a "
           "conditional scan); 4*10^5 random programs (replay/muwref_explore.ml) found no violation beforehand.  The wrapper steps MuWaitModel unchanged (its tie is "
           "muwait_replay on muwait_mix); refcount VRT_MUWAIT=1 remains the real-library oracle.  NOT covered by one theorem: mutex + cv + nsync_mu_wait users together "
           "(MuAllModel has no refcount wrapper): mix_all is the oracle there.  A thread that meets MU_CONDITION crashes "
           "in these models and keeps its reference; the models' footprint is word + queue, reads included by pc",
           "waker half (cv / note / counter vs nsync_wait_n and cancellable waits): arena + dead-stack oracles over sampled schedules"]
TRUSTED_BASE = ["replay/waitn_replay.ml footprint comparison: attribution of traced events to model steps by the scenario's brackets and linearization events; stack regions carry no offsets",
                "harness/rt/vrt.c arena (one mapping per allocation, PROT_NONE after free, never reused) and dead-stack check"]


def run(tier, seed):
    res = {"violations": [], "broken": [], "coverage": {}}
    import mu_common
    tie = prop_mu_family.mu_tie(res, tier, seed, 200, 2000)
    # the reference-count pattern itself (MuRefModel steps MuModel unchanged: the tie of the wrapper is MuModel's, on the pattern's own traces)
    tie2 = mu_common.tie(res, "mu_replay", "MuModel (refcount pattern)", [("refcount", {}, 150, 1500), ("refcount", {"VRT_RMODE": 1}, 100, 1000)], tier, seed)
    tiex = mu_common.tie(res, "muxfer_replay", "MuXferModel", [("cv_mix", {"VRT_MODE": m}, 60, 600) for m in (0, 2, 3, 7)], tier, seed)
    tie3 = mu_common.tie(res, "semwait_replay", "SemWaitModel", [("cancel_mix", {}, 100, 1000), ("cancel_mix", {"VRT_KIND": 2, "VRT_OMIT": 1}, 50, 500),
                                                                   ("cancel_mix", {"VRT_KIND": 3, "VRT_OMIT": 0}, 50, 500)], tier, seed)
    for k in ("traces_validated_against_impl", "lockstep_model_steps"):
        tie[k] = tie.get(k, 0) + tie2.get(k, 0) + tie3.get(k, 0) + tiex.get(k, 0)
    tie["model_sites_hit_muxfer"] = tiex.get("model_sites_hit", {})
    specs = [("note_waitwin", {"VRT_AIM": 60}, 2500, 40000), ("mix_all", {}, 2000, 40000), ("mix_all", {"VRT_DEBUGGER": 1, "VRT_RACE": 0}, 600, 10000), ("refcount_cv", {}, 400, 6000), ("refcount_cv", {"VRT_SCRIPT": 0}, 1500, 30000), ("refcount", {}, 3000, 60000), ("refcount", {"VRT_RMODE": 1}, 1000, 20000), ("refcount", {"VRT_MUWAIT": 1}, 3000, 60000), ("refcount", {"VRT_MUWAIT": 1, "VRT_PLAINPM": 30}, 1500, 30000),
             ("waitn_mix", {"VRT_PLAINPM": 40}, 2000, 60000), ("waitn_mix", {"VRT_AIM": 60}, 4000, 60000), ("waitn_mix", {"VRT_AIM": 60, "VRT_KIND": 1}, 4000, 60000),
             ("waitn_mix", {"VRT_AIM": 60, "VRT_KIND": 2}, 2000, 30000), ("cancel_mix", {"VRT_AIM": 60}, 1500, 30000), ("cv_mix", {"VRT_MODE": 3, "VRT_PLAINPM": 40}, 1000, 20000), ("waitn_mix", {}, 3000, 60000),
             ("cv_mix", {"VRT_MODE": 0}, 1000, 20000), ("note_mix", {"VRT_FAMILY": 1}, 800, 15000)]
    cov = scen_common.run_scenarios(res, specs, tier, seed, scen_common.MEMORY | scen_common.CRASHES)
    cov["rule"] = ("mix_all: every kind of operation (lock, rlock, try-locks, timed mu_wait and cv waits in both modes, nsync_wait_n with and without the mutex, wake-ups under the write lock / a read lock / no lock, debug state) mixed at random on one malloc'ed mutex, ended by the write-mode refcount pattern; refcount_cv: the write-mode pattern with a reader round that waits on a cv, a non-user in nsync_wait_n on that cv and a broadcast under a read lock (F15 shape; scripted chooser and random schedules); refcount: 2..4 users of a malloc'ed {mutex, refs} run lock; last = --refs == 0; unlock; if last free (with extra lock/rlock "
                   "traffic so queues form); waitn_mix / cv_mix / note_mix: wakers against nsync_wait_n and cancellable waits whose deadline "
                   "or other objects can end the wait at any moment, every object made ready again after the call returned; "
                   "non-trivial = runs with semaphore sleeps")
    cov.update(tie)
    res["coverage"] = cov
    return res
