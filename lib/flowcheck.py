"""Validation of gen/flow.py against executed traces: every pair of consecutive atomic events of one thread inside one function
must be allowed by the regenerated flow relation (Gen/Flow.json), where 'allowed' = a path a -> (call nodes)* -> b, or the function
returned and was entered again (a ->* EXIT and ENTRY ->* b through call nodes only)."""
import os, json
from vcommon import GEN

_cache = {}


def _load():
    key = os.path.getmtime(os.path.join(GEN, "Flow.json")) if os.path.exists(os.path.join(GEN, "Flow.json")) else None
    if _cache.get("key") == key and key is not None:
        return _cache["val"]
    flows = json.load(open(os.path.join(GEN, "Flow.json")))
    sites = json.load(open(os.path.join(GEN, "Sites.json")))
    line2site = {}
    amb = set()
    for s in sites:
        k = (s["file"], s["line"])
        if k in line2site and line2site[k] != (s["fn"], s["ord"]):
            amb.add(k)
        line2site[k] = (s["fn"], s["ord"])
    for k in amb:
        line2site[k] = (line2site[k][0], None)      # several sites on one source line: the event cannot be attributed
    rel = {}          # (file, fn) -> set of allowed (i, j), i = 0 for "function (re)entered"
    calls = {}
    for fb, es in flows.items():
        byfn = {}
        for fn, a, b in es:
            byfn.setdefault(fn, []).append((a, b))
        for fn, edges in byfn.items():
            succ = {}
            for a, b in edges:
                succ.setdefault(a, set()).add(b)
            calls[fn] = {b[2:] for a, b in edges if b.startswith("c:")}

            def reach(a):
                """site / EXIT labels reachable from a through call nodes only"""
                out, seen, todo = set(), set(), [a]
                while todo:
                    x = todo.pop()
                    for y in succ.get(x, ()):
                        if y.startswith("c:"):
                            if y not in seen:
                                seen.add(y)
                                todo.append(y)
                        else:
                            out.add(y)
                return out
            nodes = {a for a, _ in edges} | {b for _, b in edges}
            allowed = set()
            from_entry = {int(x[1:]) for x in reach("ENTRY") if x.startswith("s")}
            for j in from_entry:
                allowed.add((0, j))
            for a in nodes:
                if not a.startswith("s"):
                    continue
                r = reach(a)
                for x in r:
                    if x.startswith("s"):
                        allowed.add((int(a[1:]), int(x[1:])))
                if "EXIT" in r:
                    for j in from_entry:
                        allowed.add((int(a[1:]), j))
            rel[(fb, fn)] = allowed
    # recursive functions: a nested invocation's events interleave with the outer one's; skipped
    rec = set()
    for fn in calls:
        seen, todo = set(), list(calls[fn])
        while todo:
            g = todo.pop()
            if g == fn:
                rec.add(fn)
                break
            if g in seen:
                continue
            seen.add(g)
            todo.extend(calls.get(g, ()))
    val = (line2site, rel, rec)
    _cache["key"], _cache["val"] = key, val
    return val


import threading
_lock = threading.Lock()
OBSERVED = {}        # (file, fn, i, j) -> count, accumulated over the traces of this process


def coverage(files=None):
    """(observed distinct pairs, static pairs) over the given source files (all if None)"""
    line2site, rel, rec = _load()
    stat = {(f, fn, i, j) for (f, fn), al in rel.items() if fn not in rec and (files is None or f in files) for (i, j) in al}
    with _lock:
        obs = {k for k in OBSERVED if k in stat}
    return len(obs), len(stat)


def check_trace(path):
    """returns (pairs checked, [violation text])"""
    try:
        line2site, rel, rec = _load()
    except Exception as e:
        return 0, ["flow relation unavailable: %r" % (e,)]
    last = {}
    n, bad = 0, []
    for ln in open(path, errors="replace"):
        if not ln.startswith("E "):
            continue
        t = ln.split()
        if len(t) < 7 or t[3] not in ("cas", "load", "store"):
            continue
        try:
            f, l = t[5].rsplit(":", 1)
            k = (f, int(l))
        except ValueError:
            continue
        if k not in line2site:
            continue
        fn, j = line2site[k]
        if fn in rec or (f, fn) not in rel:
            continue
        tid = t[2]
        i = last.get((tid, f, fn), 0)
        if i is None or j is None:
            last[(tid, f, fn)] = j
            continue
        n += 1
        with _lock:
            OBSERVED[(f, fn, i, j)] = OBSERVED.get((f, fn, i, j), 0) + 1
        if (i, j) not in rel[(f, fn)]:
            if len(bad) < 3:
                bad.append("thread %s: %s:%s site %d directly after site %d is not a path of the extracted control flow (%s)" % (tid, f, fn, j, i, ln.strip()[:120]))
        last[(tid, f, fn)] = j
    return n, bad
