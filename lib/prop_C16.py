"""C16: debug-state functions only observe (a) and stay inside the buffer (b)."""
import os, time, random
from vcommon import *
import vrt_runner

PID = "C16"
PROP_V = ["Props/Properties_C16.v", "Props/Properties_C16a.v", "Props/Properties_C16c.v"]
GEN_MODULES = ["Emit", "Sites", "Consts"]
FLOW_FILES = ['debug.c', 'common.c', 'mu.c']
REPLAY_HINT = ("(a) VRT_SEED=<seed> VRT_DEBUGGER=1 VRT_RACE=0 _work/h/mu_mix   (b) _work/c16/drv prints "
               "'<fn> <state> <n> <ret==buf> <hex text> <hex of buf[-8..n+8)> <text unchanged during the call>' per case")
PARTIAL = ["C16(a), mutex half, is PROVED (Properties_C16a over Model/MuDbgModel.v, a wrapper that steps MuModel unchanged and adds any number of debugger "
           "threads running nsync_mu_debug_state / _and_waiters / nsync_mu_debugger one atomic site at a time, values and loop guards from Gen/Sites.v): a debugger "
           "step changes no holder, queue, waiting flag or semaphore and no bit of the word but MU_SPINLOCK (C16a_holders); exclusion and word_agrees hold in every "
           "reachable combined world (C16a_exclusion); spinlock discipline and owner exclusion (C16a_spinlock_discipline, C16a_owner_excludes); no debugger pc is a "
           "semaphore wait and an owner releases within 2*records+3 own steps (C16a_no_semaphore -- by construction of the debugger's step type --, C16a_release_within_2, C16a_owner_releases, C16a_nonowner_inert); NO LOST HAND-OFF with debuggers present: MuProof3's HInv "
           "lifted to the combined system (C16a_no_lost_handoff, C16a_last_holder_must_scan, C16a_spinlock_owner_live: whoever owns the spin bit is enabled); the "
           "F2 regression as a theorem about the OLD code shape (C16a_stale_store_refuted: with the plain store of the stale word two lockers hold W).  Same "
           "partiality as C02b (the reader half says 'held in either mode'); condition-free MuModel WITHOUT cv traffic or nsync_mu_wait callers on the same mutex: wake_waiters as a "
           "third kind of spinlock owner is not a participant of MuDbgModel (the stale-MU_WAITING state of F15 was outside it too)",
           "C16(a), cv half (Properties_C16c over Model/CvDbgModel.v): the debugger changes only CV_SPINLOCK, the plain release store of the word returned at "
           "acquisition is exact (every other write of cv->word happens under the spinlock), owner exclusion, never blocks, CvProof.AInv of the base world whenever "
           "no debugger owns; NOT proved: CvProof2-7 (no lost cv wake-up) over the combined system -- that part stays with the write-monitor / stuck oracles",
           "the unlocked walk of nsync_mu_debugger / nsync_cv_debugger ('unsafe, for interactive debuggers') is modelled as read-only steps; emit_waiters applies "
           "DLL_WAITER to nsync_wait_n records that are not embedded in a waiter struct and so READS outside the record (DESIGN 9.2, observed, not raised: the "
           "property speaks of writes and of the buffer)"]
TRUSTED_BASE = ["Model/MuDbgModel.v / Model/CvDbgModel.v debugger skeletons (hand-written; the take-the-spinlock branch condition of debug.c:202-203 / 245-246 is "
                "restated), validated by lock-step replay of mu_mix / cv_mix with a debugger thread (replay/mudbg_replay.ml, replay/cvdbg_replay.ml)"]

def build_driver():
    d = os.path.join(WORK, "c16")
    os.makedirs(d, exist_ok=True)
    rc, o, e = sh(["gcc", "-O1", "-g", "-w", "-pthread", "-fsanitize=address,undefined", "-fno-sanitize-recover=all"] +
                  ["-I%s/%s" % (REPO, i) for i in C_INC] + [os.path.join(VERIF, "harness/seq/debug_driver.c")] +
                  [os.path.join(REPO, s) for s in C_LIB_SRC] + ["-o", d + "/drv"], timeout=300)
    return (d + "/drv", None) if rc == 0 else (None, e[-800:])


def oracle(fn, state, n, ret_ok, text, area, stable=True):
    """Exactly the property, nothing more: writes only inside buf[0..n-1]; NUL-terminated if n>=1; a truncated result ends with
    '...' when n>=4 (truncated = a proper prefix of the full text followed by that marker).  `text` is the full text of the same
    state (big buffer, taken before and after the call; `stable` says the two agreed -- if not, only the text-independent parts
    are judged).  NOT demanded, because the property does not state it: how many characters of the text survive a truncation,
    that a text which would fit is returned whole rather than truncated, and what a truncated result looks like for n < 4."""
    m = max(n, 0)
    pre, buf, post = area[:8], area[8:8 + m], area[8 + m:]
    if pre != b"\xee" * 8 or post != b"\xee" * len(post):
        return "bytes outside buf[0..n-1] were written"
    if n >= 1:
        if b"\0" not in buf:
            return "result is not NUL-terminated"
        s = buf[:buf.index(b"\0")]
        if not stable or s == text or n < 4:
            return None
        # n >= 4 and the result is not the full text: it was truncated
        if not s.endswith(b"..."):
            return "truncated result does not end with '...'"
        if not text.startswith(s[:-3]):
            return "truncated result is not a prefix of the full text followed by '...'"
    return None


def model_diff(cases):
    d = os.path.join(WORK, "c16")
    path = os.path.join(d, "cases.v")
    L = ["From NsyncBase Require Import CSem.", "From NsyncGen Require Import Emit.",
         "From NsyncProof Require Import EmitSpec.", "Local Open Scope Z_scope.",
         "Definition rd (n : Z) (cs : list Z) : list Z :=",
         "  let '(_, mem') := emit_all (fun _ => zero_emit_buf) (fun _ => 238) 1 1000 n (cs ++ [0]) in",
         "  map (fun i => (mem' (1000 - 8 + Z.of_nat i)) mod 256) (seq 0 (Z.to_nat (Z.max n 0) + 16)).",
         "Fixpoint eqlz (a b : list Z) : bool := match a, b with [], [] => true | x :: a', y :: b' => (x =? y) && eqlz a' b' | _, _ => false end.",
         "Definition chk (i : Z) (ok : bool) : list Z := if ok then [] else [i]."]
    names = []
    shard = 60
    for k in range(0, len(cases), shard):
        body = []
        for i in range(k, min(k + shard, len(cases))):
            n, text, area = cases[i]
            body.append("chk %d (eqlz (rd (%d) [%s]) [%s])" % (i, n, "; ".join(str(b) for b in text), "; ".join(str(b) for b in area)))
        nm = "bad_%d" % k
        names.append(nm)
        L.append("Definition %s := Eval vm_compute in (%s)." % (nm, " ++ ".join(body)))
    L.append("Definition all_bad := Eval vm_compute in (%s)." % " ++ ".join(names))
    L.append("Print all_bad.")
    open(path, "w").write("\n".join(L) + "\n")
    rc, out, err = sh(["coqc", "-Q", "Base", "NsyncBase", "-Q", "Gen", "NsyncGen", "-Q", "Proof", "NsyncProof", path],
                      cwd=COQ, timeout=900)
    if rc != 0:
        return None, (err or out)[-600:]
    m = re.search(r"all_bad\s*=\s*(.*?)\s*:\s*list Z", out, re.S)
    if not m:
        return None, "cannot parse coqc output"
    return [int(x) for x in re.findall(r"-?\d+", m.group(1))], None


def run(tier, seed):
    res = {"violations": [], "broken": [], "coverage": {}}
    st = json.load(open(os.path.join(GEN, "STATUS.json")))
    # (b) buffer discipline on the real library
    drv, err = build_driver()
    cases = []
    nb = unstable = 0
    if drv is None:
        res["broken"].append({"what": "real library + debug driver does not compile", "detail": err})
    else:
        rc, out, err = sh([drv], timeout=120)
        if rc != 0:
            res["violations"].append({"why": "debug driver crashed (exit %d): %s" % (rc, err[-400:]), "key": "debug-crash"})
        for line in out.splitlines():
            f = line.split(" ")
            if len(f) != 7:
                res["broken"].append({"what": "debug driver printed an unparseable line", "detail": line[:200]})
                break
            fn, state, n, ret_ok, text, area, stable = f
            fn, state, n, stable = int(fn), int(state), int(n), stable == "1"
            text, area = bytes.fromhex(text), bytes.fromhex(area)
            nb += 1
            unstable += 0 if stable else 1
            v = oracle(fn, state, n, ret_ok, text, area, stable)
            if v:
                res["violations"].append({"case": {"fn": fn, "state": state, "n": n, "text": text.decode("latin1")},
                                          "buf": area.hex(), "why": v, "key": "buffer:%d" % fn})
            if stable:
                cases.append((n, list(text), list(area)))
        res["violations"] = res["violations"][:5]
    diffs = 0
    if cases and st.get("Emit", {}).get("ok") and os.path.exists(os.path.join(COQ, "Proof/EmitSpec.vo")):
        rnd = random.Random(seed)
        sub = cases if tier == "thorough" else rnd.sample(cases, min(len(cases), 500))
        bad, err = model_diff(sub)
        if bad is None:
            res["broken"].append({"what": "model evaluation failed", "detail": err})
        else:
            diffs = len(sub)
            for i in bad[:3]:
                res["broken"].append({"what": "correspondence: Gen/Emit.v and the real debug.c disagree on the buffer contents",
                                      "case": {"n": sub[i][0], "text": bytes(sub[i][1]).decode("latin1")}})
    # store-through-buffer check (syntactic): recorded by gen/regen.py
    if "EmitOnlyWriter" in st and not st["EmitOnlyWriter"].get("ok"):
        res["broken"].append({"what": "debug.c stores through a char pointer outside emit_c", "detail": st["EmitOnlyWriter"]["errors"]})
    # (a) lock-step tie of the debugger-participant models
    import mu_common
    tie = mu_common.tie(res, "mudbg_replay", "MuDbgModel", [("mu_mix", {"VRT_DEBUGGER": 1, "VRT_RACE": 0}, 300, 3000),
                                                             ("mu_mix", {"VRT_DEBUGGER": 2, "VRT_RACE": 0}, 200, 2000)], tier, seed)
    tie2 = mu_common.tie(res, "cvdbg_replay", "CvDbgModel", [("cv_mix", {"VRT_MODE": m, "VRT_DEBUGGER": 1, "VRT_RACE": 0}, 100, 1000) for m in (0, 1, 2, 3, 7)], tier, seed)
    # (a) transparency under concurrency: lockers + debug caller under the deterministic scheduler
    na = 0
    agg = {}
    for scen in ("mu_mix", "cv_mix"):
        exe, err = vrt_runner.build(scen)
        if exe is None:
            res["broken"].append({"what": "harness build failed (%s)" % scen, "detail": err})
            continue
        nseeds = 1200 if tier == "quick" else 20000
        rs = vrt_runner.run_many(exe, range(seed * 100000 + 1, seed * 100000 + 1 + nseeds), {"VRT_DEBUGGER": 1, "VRT_RACE": 0})
        a2, fails = vrt_runner.summarize(rs)
        for k, v in a2.items():
            agg[k] = agg.get(k, 0) + v
        na += len(rs)
        seen = set()
        for f in fails:
            k = f["prop"]
            # only what C16 states: no change of ownership (C16 write monitor, C01), no lost wake-up / deadlock (STUCK, BUDGET, HANG), no crash.
            # Unsynchronised READS of the debug functions (they walk the waiter list without the spinlock when the non-empty bit was
            # clear at their first load: reported by the detector as RACE / DEADSTACK) are outside the property; see DESIGN.md 9.2.
            if k not in ("C16", "C01", "STUCK", "BUDGET", "HANG", "CRASH", "EXIT"):
                continue
            if k in seen:
                continue
            seen.add(k)
            res["violations"].append({"scenario": scen, "env": {"VRT_DEBUGGER": 1, "VRT_RACE": 0}, "seed": f["seed"],
                                      "oracle": f["prop"], "why": f["msg"], "trace_tail": f.get("tail", []),
                                      "key": "%s-debug-store" % scen if f["prop"] in ("C16", "STUCK", "C01", "BUDGET") else f["prop"]})
    res["coverage"] = {"evaluations": nb + na, "distinct_nontrivial": len(set((c[0], bytes(c[1])) for c in cases if c[0] > 0 and len(c[1]) + 1 > c[0])) + agg.get("debug_call", 0),
                       "rule": "(b) every n in 0..80 plus {127,128,200,511,1024,4000,-1,-100} x 4 functions x mutex/cv states with 0..3 queued "
                               "waiters on the real library, canaries on both sides; non-trivial = truncated outputs (n>0). "
                               "(a) schedules of lockers + a debug-state caller under the vrt scheduler; counted = debug calls executed",
                       "buffer_cases": nb, "buffer_cases_state_changed_during_call": unstable, "schedules": na, "traces_validated_against_impl": diffs, "sched_stats": agg,
                       "samples": [{"n": c[0], "text": bytes(c[1]).decode("latin1"), "buf": bytes(c[2]).hex()} for c in cases[31:33]]}
    res["coverage"]["traces_validated_against_impl"] = diffs + tie.get("traces_validated_against_impl", 0) + tie2.get("traces_validated_against_impl", 0)
    res["coverage"]["lockstep_model_steps"] = tie.get("lockstep_model_steps", 0) + tie2.get("lockstep_model_steps", 0)
    res["coverage"]["model_sites_hit"] = tie.get("model_sites_hit", {})
    res["coverage"]["model_sites_hit_cv"] = tie2.get("model_sites_hit", {})
    return res
