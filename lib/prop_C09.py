"""C09: concurrent notify / free / create on related notes is safe."""
from vcommon import *
import scen_common

PID = "C09"
PROP_V = ["Props/Properties_C09.v"]
GEN_MODULES = ["Consts", "Sites"]
FLOW_FILES = ['note.c']
REPLAY_HINT = "VRT_SEED=<seed> VRT_FAMILY=<f> _work/h/note_mix | note_f8 | note_f9"
PARTIAL = ["C09_no_stuck is proved as C09_no_stuck_partial (no deadlock made of lock acquisitions alone: locks are taken in increasing note "
           "order, every lock has an owner inside a call, whenever some thread is blocked on a note lock some thread inside a call is not) "
           "with C09_lock_order / C09_lock_has_owner / C09_idle_unlocked; progress of the four condition waits (disconnecting == 0, "
           "no children, children_changed, semaphore) needs a ranking argument and is kept as C09_no_stuck_full (Definition): decided by the "
           "stuck detector over sampled schedules and by exhaustive exploration of the extracted model (no stuck state in > 100000 "
           "configurations), not by a theorem",
           "'a later notification of that ancestor still reaches them' rests on C08_descendants_full (see C08); what is proved is the "
           "re-parenting / notify-instead step itself (C09_adoption, C09_free_post)"]
TRUSTED_BASE = ["Model/NoteModel.v control skeleton: hand-written, validated by lock-step replay incl. the per-step footprint `touches` that "
                "C09_no_uaf talks about (replay/note_replay.ml)", "harness/rt/vrt.c arena (freed notes are unmapped, never reused)"]


def run(tier, seed):
    import mu_common
    res = {"violations": [], "broken": [], "coverage": {}}
    tie = mu_common.tie(res, "note_replay", "NoteModel", [("note_mix", {"VRT_FAMILY": f}, 150, 1500) for f in (0, 1, 3)] +
                        [("note_f8", {}, 100, 1000), ("note_f9", {}, 100, 1000)], tier, seed)
    specs = [("note_mix", {"VRT_FAMILY": f}, 2500, 50000) for f in (0, 1, 3, 4)] + [("note_f8", {}, 4000, 60000), ("note_f9", {}, 2500, 40000), ("note_mix", {"VRT_PLAINPM": 40}, 2000, 40000)]
    cov = scen_common.run_scenarios(res, specs, tier, seed, {"C08"} | scen_common.MEMORY | scen_common.LIVENESS | scen_common.CRASHES)
    cov["rule"] = ("note_mix families 0 (notify(P) | free(C) with grandchild | poll/wait G | new child), 1 (two notifiers of one child | "
                   "free(parent)), 3; note_f8 (q->n->g: notify(q);free(q) | free(n) | free(g)), note_f9 (P->c->g: free(c) | free(P)); arena "
                   "that unmaps freed notes, stuck detector, descendants-notified check at quiescence; non-trivial = runs with sleeps")
    cov.update(tie)
    res["coverage"] = cov
    return res
