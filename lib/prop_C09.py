"""C09: concurrent notify / free / create on related notes is safe."""
from vcommon import *
import scen_common

PID = "C09"
PROP_V = ["Props/Properties_C09.v"]
GEN_MODULES = ["Consts", "Sites"]
FLOW_FILES = ['note.c']
REPLAY_HINT = "VRT_SEED=<seed> VRT_FAMILY=<f> _work/h/note_mix | note_f8 | note_f9"
PARTIAL = []


def run(tier, seed):
    res = {"violations": [], "broken": [], "coverage": {}}
    specs = [("note_mix", {"VRT_FAMILY": f}, 2500, 50000) for f in (0, 1, 3)] + [("note_f8", {}, 4000, 60000), ("note_f9", {}, 2500, 40000), ("note_mix", {"VRT_PLAINPM": 40}, 2000, 40000)]
    cov = scen_common.run_scenarios(res, specs, tier, seed, {"C08"} | scen_common.MEMORY | scen_common.LIVENESS | scen_common.CRASHES)
    cov["rule"] = ("note_mix families 0 (notify(P) | free(C) with grandchild | poll/wait G | new child), 1 (two notifiers of one child | "
                   "free(parent)), 3; note_f8 (q->n->g: notify(q);free(q) | free(n) | free(g)), note_f9 (P->c->g: free(c) | free(P)); arena "
                   "that unmaps freed notes, stuck detector, descendants-notified check at quiescence; non-trivial = runs with sleeps")
    res["coverage"] = cov
    return res
