"""C09: concurrent notify / free / create on related notes is safe."""
from vcommon import *
import scen_common

PID = "C09"
PROP_V = ["Props/Properties_C09.v", "Props/Properties_C09b.v", "Props/Properties_C09c.v", "Props/Properties_C08b.v"]
GEN_MODULES = ["Consts", "Sites"]
FLOW_FILES = ['note.c']
REPLAY_HINT = "VRT_SEED=<seed> VRT_FAMILY=<f> _work/h/note_mix | note_f8 | note_f9"
PARTIAL = ["'no such call deadlocks': the Definition C09_no_stuck_full of Properties_C09 (some thread's step is not EvBlocked) is satisfiable by an IDLE thread "
           "(third statement audit: it follows from nthr_ok alone), so C09_no_stuck_full_proved by itself says nothing; what Proof/NoteProof8-12 establish is the "
           "stronger `progress` (a thread with a NON-EMPTY stack whose step is not blocked: C09_lock_holder_rank, C09_disc_holder_rank, C09_disc_accounted, "
           "C09_children_accounted), and THE statement is Properties_C09c.C09_no_stuck_strong: in every reachable non-broken world in which some thread is inside a call and "
           "not asleep in nsync_note_wait's semaphore wait, some UNFINISHED thread can take a step that CHANGES the world (shape invariant C09_top_frame: the frames "
           "that only wait for a callee are never on top; C09_step_changes: a non-blocked step of a thread inside a call changes its stack; non-vacuity: "
           "C09_strong_example, a thread really blocked on a note lock while its holder progresses).  Method: ranking argument over the four condition waits (rank 0 for the "
           "not_disconnecting waits, 2n+1 for the child waits on n, 2y+2 for a blocking lock of y; a blocked thread's responsible thread -- the "
           "lock holder, or the thread counted in disconnecting (C09_disc_accounted) -- can step or is blocked at a strictly higher rank), on the "
           "invariant InvS (Proof/NoteProof8-12); it uses the repairs F7, F10, F11 (children_changed = no children or adoptions differ from the "
           "value read at the start of THIS pass).  Fair-schedule termination is not stated: no-stuck is the safety half",
           "'a later notification of that ancestor still reaches them': Properties_C08b.C08_descendants_full_holds (creation-time descendants of a "
           "notified note are notified once no notification is in progress, across adoptions), with C09_adoption / C09_free_post for the step itself",
           "the stale-`seen_adoptions` shape (seeded change C09c: the value read once before the loop) alters no atomic site and no call order, so "
           "neither the pinned inventory nor the flow pin sees it; it is caught by the directed scenario note_f9 VRT_T3=2 (livelock: a spin without "
           "scheduling point is reported by the runtime after 2*10^7 plain accesses, or the step budget)"]
TRUSTED_BASE = ["Model/NoteModel.v control skeleton: hand-written, validated by lock-step replay incl. the per-step footprint `touches` that "
                "C09_no_uaf talks about (replay/note_replay.ml)", "harness/rt/vrt.c arena (freed notes are unmapped, never reused)"]


def run(tier, seed):
    import mu_common
    res = {"violations": [], "broken": [], "coverage": {}}
    tie = mu_common.tie(res, "note_replay", "NoteModel", [("note_mix", {"VRT_FAMILY": f}, 150, 1500) for f in (0, 1, 3)] +
                        [("note_f8", {}, 100, 1000), ("note_f9", {}, 100, 1000), ("note_f9", {"VRT_T3": 2}, 100, 1000)], tier, seed)
    specs = [("note_mix", {"VRT_FAMILY": f}, 2500, 50000) for f in (0, 1, 3, 4)] + [("note_f8", {}, 4000, 60000), ("note_f9", {}, 2500, 40000), ("note_f9", {"VRT_T3": 2}, 2000, 30000),
             ("note_mix", {"VRT_PLAINPM": 40}, 2000, 40000)]
    cov = scen_common.run_scenarios(res, specs, tier, seed, {"C08"} | scen_common.MEMORY | scen_common.LIVENESS | scen_common.CRASHES)
    cov["rule"] = ("note_mix families 0 (notify(P) | free(C) with grandchild | poll/wait G | new child), 1 (two notifiers of one child | "
                   "free(parent)), 3; note_f8 (q->n->g: notify(q);free(q) | free(n) | free(g)), note_f9 (P->c->g: free(c) | free(P) [| notify(g), VRT_T3=2: started once g has been handed to P]); arena "
                   "that unmaps freed notes, stuck detector, descendants-notified check at quiescence; non-trivial = runs with sleeps")
    cov.update(tie)
    res["coverage"] = cov
    return res
